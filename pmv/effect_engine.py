"""E7 effect / alias analysis (R-EFFECT, R-OWN).

Flow-sensitive may-alias sets per local: each variable maps to a set of roots
  fresh | param:<name> | global:<Mod.NAME> | self | selffield:<name>
('~' prefix = a fresh container whose *elements* may alias the root).
Mutation primitives: attribute store, subscript store/delete, AugAssign with a list
on a name, container mutator methods, and calls of functions/methods whose summary
says they mutate an argument / their receiver.  Summaries (mutated parameters,
parameters the result may alias) are iterated to a fixpoint over the package.
A report is raised only with a concrete chain  root -> alias steps -> primitive.
"""
import ast

from .frontend import AnalysisError, norm_text, body_without_docstring
from .absint import Terminated

LIST_MUTATORS = {"append", "extend", "insert", "sort", "reverse", "pop", "remove", "clear", "update", "setdefault", "popitem"}
FRESH_BUILTINS = {"float", "int", "abs", "round", "len", "str", "bool", "sum", "max", "min", "range", "enumerate", "zip",
                  "isinstance", "iint", "floor", "sqrt", "sin", "cos", "tan", "asin", "acos", "atan", "atan2", "radians",
                  "degrees", "copysign", "fsum", "print", "divmod", "ceil", "fabs", "repr", "format", "type", "hash", "pow"}
SHALLOW_BUILTINS = {"list", "tuple", "sorted", "reversed", "dict", "set"}

# methods allowed to write to their own object (documented mutators, constructors
# and the private helpers they delegate to) - one line of reason each
ALLOWED_SELF_MUTATORS = {
    "Angle.Angle.__init__": "constructor", "Angle.Angle.set": "documented setter", "Angle.Angle.set_radians": "documented setter",
    "Angle.Angle.set_ra": "documented setter", "Angle.Angle.set_tolerance": "documented setter",
    "Angle.Angle.to_positive": "documented in-place normalisation",
    "Epoch.Epoch.__init__": "constructor", "Epoch.Epoch.set": "documented setter",
    "Interpolation.Interpolation.__init__": "constructor", "Interpolation.Interpolation.set": "documented setter",
    "Interpolation.Interpolation.set_tolerance": "documented setter",
    "Interpolation.Interpolation._order_points": "private helper of set()", "Interpolation.Interpolation._compute_table": "private helper of set()",
    "CurveFitting.CurveFitting.__init__": "constructor", "CurveFitting.CurveFitting.set": "documented setter",
    "CurveFitting.CurveFitting._compute_parameters": "private helper of set()",
    "Earth.Ellipsoid.__init__": "constructor", "Earth.Earth.__init__": "constructor", "Earth.Earth.set": "documented setter",
    "Minor.Minor.__init__": "constructor", "Minor.Minor.set": "documented setter",
}


INPLACE_DUNDER = {ast.Add: "__iadd__", ast.Sub: "__isub__", ast.Mult: "__imul__", ast.Div: "__itruediv__", ast.Mod: "__imod__", ast.Pow: "__ipow__"}


class Summary:
    def __init__(self):
        self.mutated = {}      # param index -> description of the primitive
        self.ret_alias = set()  # param indexes the result may alias

    def snapshot(self):
        return (tuple(sorted(map(str, self.mutated))), tuple(sorted(map(str, self.ret_alias))))


class Mutation:
    def __init__(self, mod, qual, node, roots, what, chain):
        self.mod, self.qual, self.node, self.roots, self.what, self.chain = mod, qual, node, roots, what, chain

    @property
    def site(self):
        return "%s.%s" % (self.mod, self.qual)


class EffectAnalysis:
    def __init__(self, repo):
        self.repo = repo
        self.summ = {}
        self.mutations = []
        self.functions = 0
        self.container_stores = 0
        self.topos_sites = 0
        self.methods_by_name = {}
        for mn, m in repo.modules.items():
            for q in m.functions:
                if "." in q and "<locals>" not in q:
                    self.methods_by_name.setdefault(q.split(".")[-1], []).append("%s.%s" % (mn, q))
        funcs = list(repo.all_functions(include_demo=False, include_nested=False))
        self.functions = len(funcs)
        for it in range(5):
            before = {k: v.snapshot() for k, v in self.summ.items()}
            self.mutations = []
            self.container_stores = 0
            self.topos_sites = 0
            for mn, q, fn in funcs:
                FuncEffects(self, mn, q, fn).run()
            if before == {k: v.snapshot() for k, v in self.summ.items()}:
                break


_CACHE = {}


def analysis_for(repo):
    k = repo.digest()
    if k not in _CACHE:
        _CACHE.clear()
        _CACHE[k] = EffectAnalysis(repo)
    return _CACHE[k]


FRESH = frozenset(["fresh"])


def shallow(roots):
    out = set()
    for r in roots:
        if r == "fresh":
            out.add(r)
        elif r.startswith("~"):
            out.add(r)
        else:
            out.add("~" + r)
    return frozenset(out or ["fresh"])


def elems(roots):
    """roots of an element of a container with the given roots"""
    out = set()
    for r in roots:
        out.add(r[1:] if r.startswith("~") else r)
    return frozenset(out)


class FuncEffects:
    def __init__(self, an, mod, qual, fn):
        self.an, self.mod, self.qual, self.fn = an, mod, qual, fn
        self.m = an.repo.mod(mod)
        parts = qual.split(".")
        self.cls = parts[0] if parts[0] in self.m.classes else None
        self.key = "%s.%s" % (mod, qual)
        self.summary = an.summ.setdefault(self.key, Summary())
        a = fn.args
        self.params = [x.arg for x in a.posonlyargs + a.args]
        self.vararg = a.vararg.arg if a.vararg else None
        self.kwarg = a.kwarg.arg if a.kwarg else None
        self.static = any(isinstance(d, ast.Name) and d.id == "staticmethod" for d in fn.decorator_list)
        self.is_method = self.cls is not None and not self.static
        self.closures = {}

    def run(self):
        env = {}
        for i, p in enumerate(self.params):
            if self.is_method and i == 0:
                env[p] = frozenset(["self"])
            else:
                env[p] = frozenset(["param:" + p])
        if self.vararg:
            env[self.vararg] = frozenset(["~param:*" + self.vararg])
        if self.kwarg:
            env[self.kwarg] = frozenset(["~param:**" + self.kwarg])
        for x in self.fn.args.kwonlyargs:
            env[x.arg] = frozenset(["param:" + x.arg])
        try:
            self.block(body_without_docstring(self.fn), env)
        except Terminated:
            pass

    # ------------------------------------------------------------ events
    def mutate(self, node, roots, what, derived=False):
        roots = frozenset(r for r in roots if r != "fresh" and not r.startswith("~"))
        if not roots:
            return
        mu = Mutation(self.mod, self.qual, node, roots, what, norm_text(node)[:120])
        mu.derived = derived   # consequence of a callee writing into its own *parameter* (reported at the callee)
        self.an.mutations.append(mu)
        for r in roots:
            if r.startswith("param:"):
                name = r[6:]
                idx = None
                if name in self.params:
                    idx = self.params.index(name)
                elif name.startswith("*") and not name.startswith("**"):
                    idx = "*"
                if idx is not None:
                    self.summary.mutated.setdefault(idx, what)
            elif r == "self" or r.startswith("selffield:"):
                self.summary.mutated.setdefault(0, what)

    # ------------------------------------------------------------ statements
    def block(self, stmts, env):
        for s in stmts:
            self.stmt(s, env)

    def stmt(self, s, env):
        if isinstance(s, ast.Assign):
            v = self.ev(s.value, env)
            for t in s.targets:
                self.assign(t, v, env, s)
        elif isinstance(s, ast.AnnAssign):
            if s.value is not None:
                self.assign(s.target, self.ev(s.value, env), env, s)
        elif isinstance(s, ast.AugAssign):
            rv = self.ev(s.value, env)
            if isinstance(s.target, ast.Name):
                cur = env.get(s.target.id, FRESH)
                if isinstance(s.value, (ast.List, ast.ListComp)):
                    self.mutate(s, cur, "in-place `%s` on a list" % norm_text(s)[:60])
                else:
                    # `x op= y` calls x.__iop__(y): for the package's classes these return a new
                    # object (rebinding) - unless the method's summary says it writes to self
                    dunder = INPLACE_DUNDER.get(type(s.op))
                    res = FRESH
                    for key in self.an.methods_by_name.get(dunder, []) if dunder else []:
                        sm = self.an.summ.get(key)
                        if sm is None:
                            continue
                        if 0 in sm.mutated:
                            self.mutate(s, cur, "`%s` dispatches to %s, which writes to its own object (%s)" % (norm_text(s)[:40], key, sm.mutated[0]))
                        if 0 in sm.ret_alias:
                            res = res | cur
                    env[s.target.id] = res
            else:
                self.store(s.target, env, s)
        elif isinstance(s, ast.Return):
            if s.value is not None:
                r = self.ev(s.value, env)
                for x in r:
                    x = x[1:] if x.startswith("~") else x
                    if x.startswith("param:") and x[6:] in self.params:
                        self.summary.ret_alias.add(self.params.index(x[6:]))
                    elif x.startswith("param:*"):
                        self.summary.ret_alias.add("*")
                    elif x == "self":
                        self.summary.ret_alias.add(0)
            raise Terminated()
        elif isinstance(s, ast.Raise):
            raise Terminated()
        elif isinstance(s, ast.If):
            self.ev(s.test, env)
            e1, e2 = dict(env), dict(env)
            t1 = t2 = False
            try:
                self.block(s.body, e1)
            except Terminated:
                t1 = True
            try:
                self.block(s.orelse, e2)
            except Terminated:
                t2 = True
            if t1 and t2:
                raise Terminated()
            if t1:
                env.clear(); env.update(e2)
            elif t2:
                env.clear(); env.update(e1)
            else:
                for k in set(e1) | set(e2):
                    env[k] = e1.get(k, FRESH) | e2.get(k, FRESH)
        elif isinstance(s, (ast.For, ast.While)):
            if isinstance(s, ast.For):
                it = self.ev(s.iter, env)
                self.bind_target(s.target, elems(it), env)
            else:
                self.ev(s.test, env)
            for _ in range(3):
                e = dict(env)
                try:
                    self.block(s.body, e)
                except Terminated:
                    pass
                changed = False
                for k, v in e.items():
                    nv = env.get(k, frozenset()) | v
                    if nv != env.get(k):
                        env[k] = nv
                        changed = True
                if not changed:
                    break
            if s.orelse:
                self.block(s.orelse, env)
        elif isinstance(s, ast.Expr):
            self.ev(s.value, env)
        elif isinstance(s, ast.FunctionDef):
            self.closures[s.name] = s
        elif isinstance(s, ast.Try):
            e0 = dict(env)
            try:
                self.block(s.body, env)
                alive = True
            except Terminated:
                alive = False
            for h in s.handlers:
                eh = {k: e0.get(k, FRESH) | env.get(k, FRESH) for k in set(e0) | set(env)}
                try:
                    self.block(h.body, eh)
                    for k, v in eh.items():
                        env[k] = env.get(k, frozenset()) | v if alive else v
                    alive = True
                except Terminated:
                    pass
            if s.finalbody:
                self.block(s.finalbody, env)
            if not alive:
                raise Terminated()
        elif isinstance(s, ast.Delete):
            for t in s.targets:
                if isinstance(t, (ast.Subscript, ast.Attribute)):
                    self.store(t, env, s)
        elif isinstance(s, ast.With):
            self.block(s.body, env)
        elif isinstance(s, (ast.Pass, ast.Import, ast.ImportFrom, ast.Global, ast.Nonlocal, ast.Break, ast.Continue, ast.Assert)):
            pass
        else:
            raise AnalysisError("effects: unsupported statement %s" % type(s).__name__)

    def bind_target(self, target, roots, env):
        if isinstance(target, ast.Name):
            env[target.id] = roots
        elif isinstance(target, (ast.Tuple, ast.List)):
            for e in target.elts:
                self.bind_target(e, elems(roots), env)

    def assign(self, target, v, env, node):
        if isinstance(target, ast.Name):
            env[target.id] = v
        elif isinstance(target, (ast.Tuple, ast.List)):
            for e in target.elts:
                self.assign(e, elems(v), env, node)
        elif isinstance(target, (ast.Subscript, ast.Attribute)):
            self.store(target, env, node)
        elif isinstance(target, ast.Starred):
            self.assign(target.value, v, env, node)

    def store(self, target, env, node):
        """attribute / subscript store: mutates the object designated by target.value"""
        base = target.value
        roots = self.ev(base, env)
        if isinstance(target, ast.Subscript):
            self.an.container_stores += 1
            self.ev(target.slice, env)
            # storing into a container: the container itself is mutated (not its elements)
            cont = frozenset(r for r in roots if not r.startswith("~"))
            self.mutate(node, cont, "store into `%s[...]`" % norm_text(base)[:60])
        else:
            self.mutate(node, elems(roots) if False else frozenset(r for r in roots if not r.startswith("~")),
                        "attribute store `%s.%s = ...`" % (norm_text(base)[:60], target.attr))

    # ------------------------------------------------------------ expressions
    def ev(self, node, env):
        if node is None or isinstance(node, ast.Constant):
            return FRESH
        if isinstance(node, ast.Name):
            if node.id in env:
                return env[node.id]
            return self.global_roots(node.id)
        if isinstance(node, (ast.BinOp,)):
            self.ev(node.left, env)
            self.ev(node.right, env)
            return FRESH
        if isinstance(node, ast.UnaryOp):
            self.ev(node.operand, env)
            return FRESH
        if isinstance(node, ast.Compare):
            self.ev(node.left, env)
            for c in node.comparators:
                self.ev(c, env)
            return FRESH
        if isinstance(node, ast.BoolOp):
            r = frozenset()
            for v in node.values:
                r |= self.ev(v, env)
            return r
        if isinstance(node, ast.IfExp):
            self.ev(node.test, env)
            return self.ev(node.body, env) | self.ev(node.orelse, env)
        if isinstance(node, (ast.Tuple, ast.List, ast.Set)):
            r = set()
            for e in node.elts:
                r |= set(shallow(self.ev(e, env)))
            return frozenset(r or ["fresh"])
        if isinstance(node, ast.Dict):
            r = set()
            for v in node.values:
                r |= set(shallow(self.ev(v, env)))
            return frozenset(r or ["fresh"])
        if isinstance(node, ast.Subscript):
            base = self.ev(node.value, env)
            if isinstance(node.slice, ast.Slice):
                return shallow(base)
            self.ev(node.slice, env)
            return elems(base)
        if isinstance(node, ast.Attribute):
            if isinstance(node.value, ast.Name) and node.value.id not in env:
                g = self.global_roots(node.value.id)
                if g == FRESH:
                    return FRESH
            base = self.ev(node.value, env)
            out = set()
            for r in base:
                if r == "self":
                    out.add("selffield:" + node.attr)
                else:
                    out.add(r)
            return frozenset(out)
        if isinstance(node, ast.Call):
            return self.call(node, env)
        if isinstance(node, (ast.ListComp, ast.GeneratorExp, ast.SetComp)):
            e = dict(env)
            for g in node.generators:
                it = self.ev(g.iter, e)
                self.bind_target(g.target, elems(it), e)
                for c in g.ifs:
                    self.ev(c, e)
            return shallow(self.ev(node.elt, e))
        if isinstance(node, ast.Starred):
            return elems(self.ev(node.value, env))
        if isinstance(node, (ast.Lambda, ast.JoinedStr)):
            return FRESH
        return FRESH

    def global_roots(self, name):
        m = self.m
        owner = None
        if name in m.globals:
            owner, g = m.name, m.globals[name]
        elif name in m.imports:
            src, orig = m.imports[name]
            if src and src.startswith("pymeeus."):
                sm = src.split(".", 1)[1]
                om = self.an.repo.modules.get(sm)
                if om and orig in om.globals:
                    owner, g, name = sm, om.globals[orig], orig
        if owner is None:
            return FRESH
        if isinstance(g, ast.Constant):
            return FRESH       # immutable number/string
        if isinstance(g, (ast.BinOp, ast.UnaryOp)):
            return FRESH
        return frozenset(["global:%s.%s" % (owner, name)])

    def resolve(self, node):
        """callable expression -> list of repo function keys (or None)"""
        f = node.func
        m = self.m
        if isinstance(f, ast.Name):
            n = f.id
            if n in m.functions and "." not in n:
                return ["%s.%s" % (m.name, n)], False
            if n in m.classes:
                return self.ctor(m.name, n), True
            if n in m.imports:
                src, orig = m.imports[n]
                if src and src.startswith("pymeeus."):
                    sm = src.split(".", 1)[1]
                    om = self.an.repo.modules.get(sm)
                    if om and orig in om.classes:
                        return self.ctor(sm, orig), True
                    if om and orig in om.functions:
                        return ["%s.%s" % (sm, orig)], False
            return None, False
        return None, False

    def ctor(self, mod, cls):
        k = "%s.%s.__init__" % (mod, cls)
        return [k] if k in self.an.summ or self.an.repo.mod(mod).has_func(cls + ".__init__") else []

    def class_of_name(self, name):
        m = self.m
        if name in m.classes:
            return m.name, name
        if name in m.imports:
            src, orig = m.imports[name]
            if src and src.startswith("pymeeus."):
                sm = src.split(".", 1)[1]
                om = self.an.repo.modules.get(sm)
                if om and orig in om.classes:
                    return sm, orig
        return None

    def call(self, node, env):
        f = node.func
        argroots = [self.ev(a, env) for a in node.args]
        for k in node.keywords:
            self.ev(k.value, env)
        # ---- plain names
        if isinstance(f, ast.Name):
            n = f.id
            if n in self.closures:
                return self.call_closure(self.closures[n], node, argroots, env)
            if n in FRESH_BUILTINS:
                return FRESH
            if n in SHALLOW_BUILTINS:
                return shallow(argroots[0]) if argroots else FRESH
            targets, is_ctor = self.resolve(node)
            if targets is None:
                return FRESH
            if is_ctor:
                # constructor: self is the new object; arguments may be mutated by __init__/set
                for t in targets:
                    self.apply_summary(t, node, [FRESH] + argroots, node.args, offset=1)
                return FRESH
            r = frozenset()
            for t in targets:
                r |= self.apply_summary(t, node, argroots, node.args)
            return r or FRESH
        # ---- attribute calls
        if isinstance(f, ast.Attribute):
            meth = f.attr
            if isinstance(f.value, ast.Name) and f.value.id not in env:
                c = self.class_of_name(f.value.id)
                if c is not None:
                    key = "%s.%s.%s" % (c[0], c[1], meth)
                    fn = self.an.repo.mod(c[0]).functions.get("%s.%s" % (c[1], meth))
                    if fn is not None:
                        static = any(isinstance(d, ast.Name) and d.id == "staticmethod" for d in fn.decorator_list)
                        if static:
                            return self.apply_summary(key, node, argroots, node.args) or FRESH
                        return self.apply_summary(key, node, argroots, node.args) or FRESH
                    return FRESH
                if self.global_roots(f.value.id) == FRESH:
                    return FRESH     # module function of an external module (math., datetime., calendar.)
            recv = self.ev(f.value, env)
            if meth in LIST_MUTATORS:
                self.an.container_stores += 1
                self.mutate(node, frozenset(r for r in recv if not r.startswith("~")), "container mutator `.%s()`" % meth)
                return FRESH
            if meth == "to_positive":
                self.an.topos_sites += 1
            cands = self.an.methods_by_name.get(meth, [])
            if isinstance(f.value, ast.Name) and f.value.id == "self" and self.cls:
                own = "%s.%s.%s" % (self.mod, self.cls, meth)
                if own in cands:
                    cands = [own]
            if meth in ("index", "count", "copy", "keys", "values", "items", "get", "strip", "capitalize", "format",
                        "replace", "split", "join", "lower", "upper", "startswith", "endswith", "timetuple", "toordinal",
                        "__hash__", "is_integer"):
                return shallow(recv) if meth in ("copy", "values", "items") else FRESH
            r = frozenset()
            for t in cands:
                r |= self.apply_summary(t, node, [recv] + argroots, [f.value] + list(node.args))
            return r or FRESH
        self.ev(f, env)
        return FRESH

    def apply_summary(self, key, node, argroots, argnodes, offset=0):
        s = self.an.summ.get(key)
        if s is None:
            return FRESH
        out = set()
        for idx, what in s.mutated.items():
            if idx == "*":
                # callee mutates an element of its *args: every positional argument is exposed
                fn = self._fn_of(key)
                npos = len(fn.args.args) if fn is not None else 0
                for j, r in enumerate(argroots):
                    if j >= npos:
                        self.mutate(node, frozenset(x for x in r if not x.startswith("~")),
                                    "passed to %s which may write into it (%s)" % (key, what), derived=True)
                continue
            if isinstance(idx, int) and idx < len(argroots):
                fn = self._fn_of(key)
                is_self = idx == 0 and fn is not None and "." in key.split(".", 1)[1] and not any(
                    isinstance(d, ast.Name) and d.id == "staticmethod" for d in fn.decorator_list)
                self.mutate(node, frozenset(x for x in argroots[idx] if not x.startswith("~")),
                            "passed to %s which may write into it (%s)" % (key, what), derived=not is_self)
        for idx in s.ret_alias:
            if idx == "*":
                for r in argroots:
                    out |= set(r)
            elif isinstance(idx, int) and idx < len(argroots):
                out |= set(argroots[idx])
        return frozenset(out) if out else FRESH

    def _fn_of(self, key):
        mod, qual = key.split(".", 1)
        return self.an.repo.modules[mod].functions.get(qual)

    def call_closure(self, fn, node, argroots, env):
        e = dict(env)
        for p, r in zip([a.arg for a in fn.args.args], argroots):
            e[p] = r
        saved = self.summary.ret_alias
        self.summary.ret_alias = set()
        rets = frozenset()
        try:
            # closure returns: collect roots of returned expressions
            sub = ClosureRun(self, e)
            rets = sub.run(fn)
        finally:
            self.summary.ret_alias = saved
        return rets or FRESH


class ClosureRun:
    def __init__(self, outer, env):
        self.outer, self.env = outer, env

    def run(self, fn):
        o = self.outer
        rets = set()
        orig_stmt = o.stmt

        def stmt(s, env):
            if isinstance(s, ast.Return):
                if s.value is not None:
                    rets.update(o.ev(s.value, env))
                raise Terminated()
            return orig_stmt(s, env)
        o.stmt = stmt
        try:
            try:
                o.block(body_without_docstring(fn), self.env)
            except Terminated:
                pass
        finally:
            o.stmt = orig_stmt
        return frozenset(rets)


def check(repo, rep, funcs, rule="R-EFFECT"):
    """R-EFFECT on the listed functions: no mutation of an object that may alias a
    parameter (other than self of a documented mutator) or a module-level object."""
    an = analysis_for(repo)
    rep.rule(rule, "no write (attribute/subscript store, container mutator, mutating callee) reaches an object that may alias "
                   "a parameter or a module-level table/constant; non-mutator methods do not write to self")
    sites = set("%s.%s" % f for f in funcs)
    # helpers introduced by a refactoring (not in the frozen inventory) in the modules of the family belong to it
    from .symx import inventory
    mods = {f[0] for f in funcs}
    for mn in mods:
        m_ = repo.modules.get(mn)
        inv = inventory().get(mn)
        if m_ is None or inv is None:
            continue
        for q_ in m_.functions:
            if q_ not in inv["functions"] and "<locals>" not in q_:
                sites.add("%s.%s" % (mn, q_))
    # helpers introduced by a refactoring are judged in the context of their callers:
    #  - a write into a *parameter* of such a helper is reported at the call sites that hand it a caller-visible object;
    #  - a write to `self` is allowed when every (transitive) caller is a documented mutator.
    new_helpers = set()
    for mn, m_ in repo.modules.items():
        inv = inventory().get(mn)
        for q_ in m_.functions:
            last = q_.split(".")[-1]
            if (inv is None or q_ not in inv["functions"]) and last.startswith("_") and not last.startswith("__") and "<locals>" not in q_:
                new_helpers.add("%s.%s" % (mn, q_))
    # private helpers of the inventory (`_name`, not dunder) are treated like new helpers as far as their *parameters* go: what they do to
    # an argument matters where a caller hands them an object somebody else can see (a memo dict created by the caller is nobody's business)
    param_helpers = set(new_helpers)
    for mn, m_ in repo.modules.items():
        for q_ in m_.functions:
            last = q_.split(".")[-1]
            if last.startswith("_") and not last.startswith("__") and "<locals>" not in q_:
                param_helpers.add("%s.%s" % (mn, q_))
    callers = {}
    if new_helpers:
        names = {h.split(".")[-1]: h for h in new_helpers}
        for mn, q_, fn_ in repo.all_functions(include_demo=False, include_nested=False):
            me = "%s.%s" % (mn, q_)
            for n_ in ast.walk(fn_):
                if isinstance(n_, ast.Call):
                    nm_ = n_.func.attr if isinstance(n_.func, ast.Attribute) else n_.func.id if isinstance(n_.func, ast.Name) else None
                    h_ = names.get(nm_)
                    if h_ is not None and h_.split(".")[0] == mn and h_ != me:
                        callers.setdefault(h_, set()).add(me)

    def self_write_allowed(site, seen=()):
        if site in ALLOWED_SELF_MUTATORS:
            return True
        if site not in new_helpers or site in seen:
            return False
        cs = callers.get(site)
        return bool(cs) and all(self_write_allowed(c, seen + (site,)) for c in cs)
    bad = set()
    for mu in an.mutations:
        if mu.site not in sites:
            continue
        derived = getattr(mu, "derived", False)
        if derived:
            callee = mu.what.split("passed to ", 1)[1].split(" which", 1)[0] if "passed to " in mu.what else None
            if callee not in param_helpers:
                continue
        for r in sorted(mu.roots):
            if r.startswith("param:") and mu.site in param_helpers:
                continue               # judged at the call sites of the helper (its summary carries the mutated parameter upwards)
            if (r == "self" or r.startswith("selffield:")) and self_write_allowed(mu.site):
                continue
            if r.startswith("param:") or r.startswith("global:"):
                bad.add(mu.site)
                rep.violation(rule, mu.site, "%s:%s" % (r, mu.what.split(" which")[0][:60]),
                              "%s is written: %s [chain: %s -> %s]" % (r, mu.what, r, mu.chain),
                              construct="line %d: %s" % (mu.node.lineno, mu.chain))
            elif (r == "self" or r.startswith("selffield:")) and mu.site not in ALLOWED_SELF_MUTATORS:
                bad.add(mu.site)
                rep.violation(rule, mu.site, "self:%s" % mu.what[:60],
                              "a method that is not a documented mutator writes to its own object: %s" % mu.what,
                              construct="line %d: %s" % (mu.node.lineno, mu.chain))
    # functions nested in a family function (closures, decorator wrappers) are not interpreted by the engine above: a direct
    # store into a module-level object from inside them is found syntactically (base name, or a local alias of it, is a
    # module global; subscript / attribute store, mutator method, `global` rebinding)
    MUT = {"append", "extend", "insert", "pop", "remove", "clear", "update", "setdefault", "popitem", "sort", "reverse", "add", "discard"}
    for f in sorted(sites):
        mn_, q_ = f.split(".", 1)
        try:
            fn_ = repo.func(mn_, q_)
        except Exception:
            continue
        globs = set(repo.mod(mn_).globals)
        for inner in ast.walk(fn_):
            if inner is fn_ or not isinstance(inner, (ast.FunctionDef, ast.Lambda)):
                continue
            alias = {}
            for n_ in ast.walk(inner):
                if isinstance(n_, ast.Assign) and isinstance(n_.value, ast.Name) and n_.value.id in globs:
                    for t_ in n_.targets:
                        if isinstance(t_, ast.Name):
                            alias[t_.id] = n_.value.id
            local = {a_.arg for a_ in inner.args.args} if isinstance(inner, ast.FunctionDef) else set()

            def gbase(x):
                while isinstance(x, (ast.Subscript, ast.Attribute)):
                    x = x.value
                if isinstance(x, ast.Name) and x.id not in local:
                    return x.id if x.id in globs else alias.get(x.id)
                return None
            for n_ in ast.walk(inner):
                g = None
                if isinstance(n_, (ast.Subscript, ast.Attribute)) and isinstance(n_.ctx, (ast.Store, ast.Del)):
                    g = gbase(n_)
                elif isinstance(n_, ast.Call) and isinstance(n_.func, ast.Attribute) and n_.func.attr in MUT:
                    g = gbase(n_.func.value)
                elif isinstance(n_, ast.Global):
                    g = n_.names[0]
                if g:
                    bad.add(f)
                    rep.violation(rule, f, "global:%s.%s:nested" % (mn_, g),
                                  "global:%s.%s is written inside the nested function `%s` (line %d): state shared by every call that goes through it"
                                  % (mn_, g, getattr(inner, "name", "lambda"), n_.lineno), construct="line %d" % n_.lineno)
                    break
    for f in sorted(sites):
        repo.func(*f.split(".", 1))
        rep.fn(*f.split(".", 1))
        if f not in bad:
            rep.ok(rule, f, "no write reaches a parameter, module object or (for non-mutators) self", sample=False)
    if sites - bad:
        rep.samples.append("%s: %d functions of the family without caller-visible writes, e.g. %s"
                           % (rule, len(sites - bad), sorted(sites - bad)[0]))
    return an
