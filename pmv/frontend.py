"""E1 front end: parse every module of /repo/pymeeus, index functions, classes,
module-level literals and imports.  A vanished anchor is an AnalysisError (exit 2),
never a silent pass."""
import ast
import os
import subprocess
import sys
from fractions import Fraction

REPO = os.environ.get("PMV_REPO", "/repo")
PKG = "pymeeus"
VENV_PY = "/venv/bin/python"


class AnalysisError(Exception):
    """The analysis itself cannot be carried out (unparsable source, vanished
    anchor, instance floor not met).  Reported as ANALYSIS-ERROR, exit 2."""


def norm_text(node):
    """Normalised source text of a node (independent of formatting/comments)."""
    try:
        return ast.unparse(node)
    except Exception:  # pragma: no cover
        return ast.dump(node)


class Module:
    def __init__(self, name, path):
        self.name = name
        self.path = path
        with open(path, encoding="utf-8") as f:
            self.src = f.read()
        try:
            self.tree = ast.parse(self.src, filename=path)
        except SyntaxError as e:
            raise AnalysisError("cannot parse %s: %s" % (path, e))
        self.functions = {}   # qualname -> FunctionDef  (incl. nested: outer.<locals>.inner)
        self.classes = {}     # name -> ClassDef
        self.globals = {}     # name -> value AST node (last module-level assignment)
        self.imports = {}     # local name -> (module, original name) or (module, None)
        self._index()
        self._lit_cache = {}

    def _index(self):
        for node in self.tree.body:
            if isinstance(node, ast.FunctionDef):
                self._add_func(node, node.name)
            elif isinstance(node, ast.ClassDef):
                self.classes[node.name] = node
                for ch in node.body:
                    if isinstance(ch, ast.FunctionDef):
                        self._add_func(ch, node.name + "." + ch.name)
                    elif isinstance(ch, ast.Assign):
                        for t in ch.targets:
                            if isinstance(t, ast.Name):
                                self.globals[node.name + "." + t.id] = ch.value
            elif isinstance(node, ast.Assign):
                for t in node.targets:
                    if isinstance(t, ast.Name):
                        self.globals[t.id] = node.value
            elif isinstance(node, ast.ImportFrom):
                for a in node.names:
                    self.imports[a.asname or a.name] = (node.module, a.name)
            elif isinstance(node, ast.Import):
                for a in node.names:
                    self.imports[a.asname or a.name] = (a.name, None)

    def _add_func(self, node, qual):
        self.functions[qual] = node
        for ch in ast.walk(node):
            if ch is not node and isinstance(ch, ast.FunctionDef):
                # nested helper (one level is all the repository uses)
                self.functions.setdefault(qual + ".<locals>." + ch.name, ch)

    def func(self, qual):
        if qual not in self.functions:
            raise AnalysisError("anchor vanished: %s.%s" % (self.name, qual))
        return self.functions[qual]

    def has_func(self, qual):
        return qual in self.functions

    def literal(self, name):
        """Value of a module-level literal (ast.literal_eval on the node; simple
        arithmetic of literals and references to other module literals folded)."""
        if name in self._lit_cache:
            return self._lit_cache[name]
        if name not in self.globals:
            raise AnalysisError("table vanished: %s.%s" % (self.name, name))
        v = self._fold(self.globals[name])
        self._lit_cache[name] = v
        return v

    def _fold(self, node):
        try:
            return ast.literal_eval(node)
        except Exception:
            pass
        if isinstance(node, ast.BinOp):
            a, b = self._fold(node.left), self._fold(node.right)
            op = type(node.op)
            if op is ast.Add:
                return a + b
            if op is ast.Sub:
                return a - b
            if op is ast.Mult:
                return a * b
            if op is ast.Div:
                return a / b
            if op is ast.Pow:
                return a ** b
        if isinstance(node, ast.UnaryOp) and isinstance(node.op, ast.USub):
            return -self._fold(node.operand)
        if isinstance(node, ast.Name) and node.id in self.globals:
            return self.literal(node.id)
        if isinstance(node, (ast.List, ast.Tuple)):
            return [self._fold(e) for e in node.elts]
        if isinstance(node, ast.Dict):
            return {self._fold(k): self._fold(v) for k, v in zip(node.keys, node.values)}
        raise AnalysisError("cannot fold literal %s in %s" % (norm_text(node)[:60], self.name))

    def is_demo(self, qual):
        """main() and its helpers print examples; excluded from every rule."""
        top = qual.split(".")[0]
        return top == "main" or qual.startswith("main.")

    def public_functions(self):
        for q, f in self.functions.items():
            if self.is_demo(q) or "<locals>" in q:
                continue
            yield q, f


class Repo:
    def __init__(self, root=None, parse_gate=True):
        self.root = root or REPO
        self.pkgdir = os.path.join(self.root, PKG)
        if not os.path.isdir(self.pkgdir):
            raise AnalysisError("package directory missing: %s" % self.pkgdir)
        self.modules = {}
        files = sorted(f for f in os.listdir(self.pkgdir) if f.endswith(".py"))
        if len(files) < 20:
            raise AnalysisError("expected >= 20 modules in %s, found %d" % (self.pkgdir, len(files)))
        if parse_gate:
            self._parse_gate([os.path.join(self.pkgdir, f) for f in files])
        for f in files:
            name = f[:-3]
            self.modules[name] = Module(name, os.path.join(self.pkgdir, f))

    def _parse_gate(self, paths):
        """What is analysed must be what the repository's own interpreter would
        import: every file has to compile under /venv/bin/python (3.12)."""
        if not os.path.exists(VENV_PY) or os.environ.get("PMV_NO_GATE"):
            return
        code = ("import sys\n"
                "for p in sys.argv[1:]:\n"
                "    compile(open(p, encoding='utf-8').read(), p, 'exec', dont_inherit=True)\n")
        r = subprocess.run([VENV_PY, "-c", code] + paths, capture_output=True, text=True)
        if r.returncode != 0:
            raise AnalysisError("source does not compile under the repository interpreter: %s"
                                % r.stderr.strip().splitlines()[-1:])

    def mod(self, name):
        if name not in self.modules:
            raise AnalysisError("module vanished: %s" % name)
        return self.modules[name]

    def func(self, mod, qual):
        return self.mod(mod).func(qual)

    def all_functions(self, include_demo=False, include_nested=True):
        for mn, m in self.modules.items():
            for q, f in m.functions.items():
                if not include_demo and m.is_demo(q):
                    continue
                if not include_nested and "<locals>" in q:
                    continue
                yield mn, q, f

    def digest(self):
        import hashlib
        h = hashlib.sha256()
        for mn in sorted(self.modules):
            h.update(mn.encode())
            h.update(self.modules[mn].src.encode())
        return h.hexdigest()[:16]


def lit_fraction(node):
    """Exact rational value of a numeric literal node, from its source value."""
    v = node.value
    if isinstance(v, bool):
        return Fraction(int(v))
    if isinstance(v, int):
        return Fraction(v)
    if isinstance(v, float):
        return Fraction(repr(v))
    raise ValueError("not numeric")


def docstring_of(fn):
    return ast.get_docstring(fn) or ""


def body_without_docstring(fn):
    body = fn.body
    if body and isinstance(body[0], ast.Expr) and isinstance(getattr(body[0], "value", None), ast.Constant) \
            and isinstance(body[0].value.value, str):
        return body[1:]
    return body
