"""E8 reporting: rule instances, obligations, findings, known-findings matching,
evidence file, exit codes."""
import hashlib
import json
import os
import time

VERIF = os.path.dirname(os.path.dirname(os.path.abspath(__file__)))
KNOWN_PATH = os.path.join(VERIF, "known_findings.json")
EVID_DIR = os.environ.get("PMV_EVIDENCE_DIR") or os.path.join(VERIF, "evidence")


def digest(text):
    return hashlib.sha256(text.encode()).hexdigest()[:10]


class Finding:
    def __init__(self, prop, rule, site, key, msg, construct=""):
        self.prop, self.rule, self.site, self.key = prop, rule, site, key
        self.msg, self.construct = msg, construct

    def ident(self):
        return (self.prop, self.rule, self.site, self.key)

    def to_json(self):
        return {"property": self.prop, "rule": self.rule, "site": self.site, "key": self.key,
                "message": self.msg, "construct": self.construct}


class Report:
    """One per property run."""

    def __init__(self, prop, tier, seed=0):
        self.prop, self.tier, self.seed = prop, tier, seed
        self.t0 = time.time()
        self.instances = []        # (rule, site, verdict, detail)
        self.findings = []
        self.inconclusive = []
        self.samples = []
        self.rules = {}            # rule -> {"checked": n, "ok": n, "desc": str}
        self.obligations = 0
        self.discharged = 0
        self.analysed = {"functions": set(), "tables": set(), "call_sites": 0}
        self.decided = []
        self.undecided = []
        self.assumptions = []
        self.floors = []           # (name, found, floor)
        self.notes = []

    # ---- recording
    def rule(self, rule, desc):
        self.rules.setdefault(rule, {"checked": 0, "ok": 0, "desc": desc})

    def ok(self, rule, site, detail="", sample=True, obligation=False):
        r = self.rules.setdefault(rule, {"checked": 0, "ok": 0, "desc": ""})
        r["checked"] += 1
        r["ok"] += 1
        self.instances.append((rule, site, "ok", detail))
        if obligation:
            self.obligations += 1
            self.discharged += 1
        if sample and sum(1 for s in self.samples if s.startswith(rule + " ")) < 4:
            self.samples.append("%s %s: %s" % (rule, site, detail or "ok"))

    def violation(self, rule, site, key, msg, construct="", obligation=False):
        r = self.rules.setdefault(rule, {"checked": 0, "ok": 0, "desc": ""})
        r["checked"] += 1
        self.instances.append((rule, site, "VIOLATED", msg))
        if obligation:
            self.obligations += 1
        self.findings.append(Finding(self.prop, rule, site, key, msg, construct))

    def inconcl(self, rule, site, msg):
        r = self.rules.setdefault(rule, {"checked": 0, "ok": 0, "desc": ""})
        r["checked"] += 1
        self.obligations += 1
        self.instances.append((rule, site, "INCONCLUSIVE", msg))
        self.inconclusive.append("%s %s: %s" % (rule, site, msg))

    def fn(self, mod, qual):
        self.analysed["functions"].add("%s.%s" % (mod, qual))

    def table(self, name):
        self.analysed["tables"].add(name)

    def floor(self, name, found, floor):
        self.floors.append((name, found, floor))

    def check_floors(self):
        from .frontend import AnalysisError
        for name, found, floor in self.floors:
            if found < floor:
                raise AnalysisError("instance floor not met for %s: found %d < %d (rule would pass vacuously)"
                                    % (name, found, floor))


def load_known():
    if not os.path.exists(KNOWN_PATH):
        return []
    with open(KNOWN_PATH) as f:
        return json.load(f).get("findings", [])


def finish(rep, level="other", extra_cov=None, trusted_base=None, checker_cmd=None):
    """Match findings against the committed known-findings file, print the result
    lines, write the evidence file, return the exit code."""
    floor_failures = [(n, f, fl) for n, f, fl in rep.floors if f < fl]
    if floor_failures and not rep.findings:
        rep.check_floors()          # nothing found and a rule matched too few sites: the analysis is broken, not the code
    for n, f, fl in floor_failures:
        print("NOTE: instance floor not met for %s (%d < %d) - reported together with the violations found" % (n, f, fl))
    known = [k for k in load_known() if k.get("property") == rep.prop and k.get("status") == "known"]
    kidx = {(k["property"], k["rule"], k["site"], k["key"]): k for k in known}
    new, listed = [], []
    seen_ident = set()
    for f in rep.findings:
        if f.ident() in seen_ident:
            continue
        seen_ident.add(f.ident())
        if f.ident() in kidx:
            listed.append((f, kidx[f.ident()]))
        else:
            new.append(f)
    seen_known = set()
    for f, k in listed:
        if f.ident() in seen_known:
            continue
        seen_known.add(f.ident())
        print("KNOWN-FINDING: property=%s %s %s [%s]: %s" % (rep.prop, f.rule, f.site, f.key, k.get("what", f.msg)))
    stale = [k for k in known if (k["property"], k["rule"], k["site"], k["key"]) not in seen_known]
    for k in stale:
        print("NOTE: known finding no longer reproduced (stale entry): %s %s [%s]" % (k["rule"], k["site"], k["key"]))
    for line in rep.inconclusive:
        print("INCONCLUSIVE: property=%s %s" % (rep.prop, line))
    os.makedirs(os.path.join(EVID_DIR, "replay"), exist_ok=True)
    for f in new:
        rp = os.path.join(EVID_DIR, "replay", "%s-%s-%s.json" % (rep.prop, f.rule, digest("|".join(f.ident()))))
        with open(rp, "w") as fh:
            json.dump(f.to_json(), fh, indent=1)
        print("%s: %s: %s: %s" % (f.site, f.rule, f.key, f.msg))
        if f.construct:
            print("    construct: %s" % f.construct[:300])
        print("VIOLATION property=%s replay=%s" % (rep.prop, rp))
    n_inst = len(rep.instances)
    distinct = len({(r, s) for (r, s, v, d) in rep.instances})
    cov = {
        "evaluations": max(n_inst, 1),
        "distinct_nontrivial": distinct,
        "rule": "one evaluation = one rule instance (rule, site) whose premise matched in /repo's current source; "
                "distinct_nontrivial counts distinct (rule, site) pairs",
        "samples": rep.samples[:40] or ["(no instance)"],
        "explanation": "static analysis of /repo/pymeeus source (no execution of the library). Rules: "
                       + "; ".join("%s [%d/%d ok] %s" % (r, v["ok"], v["checked"], v["desc"]) for r, v in sorted(rep.rules.items()))
                       + ". DECIDED clauses: " + " | ".join(rep.decided)
                       + ". UNDECIDED (not detected by this check): " + " | ".join(rep.undecided),
        "obligations": rep.obligations,
        "discharged": rep.discharged,
        "functions_analysed": sorted(rep.analysed["functions"]),
        "tables_analysed": sorted(rep.analysed["tables"]),
        "floors": [{"name": n, "found": f, "floor": fl} for n, f, fl in rep.floors],
        "rules": rep.rules,
        "known_findings_printed": [f.to_json() for f, k in listed],
        "inconclusive": rep.inconclusive,
        "new_violations": [f.to_json() for f in new],
        "notes": rep.notes,
    }
    if level == "proof":
        cov["checker_cmd"] = checker_cmd or ""
        cov["trusted_base"] = trusted_base or []
    if extra_cov:
        cov.update(extra_cov)
    ev = {
        "property_id": rep.prop,
        "tier": rep.tier,
        "seed": rep.seed,
        "level": level,
        "coverage": cov,
        "assumptions": rep.assumptions,
        "wall_s": round(time.time() - rep.t0, 3),
        "violations": len(new),
    }
    os.makedirs(EVID_DIR, exist_ok=True)
    with open(os.path.join(EVID_DIR, rep.prop + ".json"), "w") as fh:
        json.dump(ev, fh, indent=1, default=str)
    print("%s tier=%s: %d rule instances over %d functions, %d obligations (%d discharged), %d known, %d inconclusive, %d NEW violations, %.2fs"
          % (rep.prop, rep.tier, n_inst, len(rep.analysed["functions"]), rep.obligations, rep.discharged,
             len(seen_known), len(rep.inconclusive), len(new), time.time() - rep.t0))
    return 1 if new else 0
